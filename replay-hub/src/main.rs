//! Native oracle for the hub handlers and the bisync apply step: runs the REAL code on JSON cases (one per line on
//! stdin) inside a fresh temporary directory and prints one JSON result per line.
#![allow(dead_code, clippy::all)]

use serde_json::{json, Value};
use std::collections::BTreeMap;
use std::io::{BufRead, Read, Write};
use std::panic::{catch_unwind, AssertUnwindSafe};
use std::path::{Path, PathBuf};

use std::alloc::{GlobalAlloc, Layout, System};
use std::sync::atomic::{AtomicUsize, Ordering};

/// allocation-tracking allocator: the largest single request since the last reset (C12 allocation bound)
struct Tracking;
static MAX_REQ: AtomicUsize = AtomicUsize::new(0);
unsafe impl GlobalAlloc for Tracking {
    unsafe fn alloc(&self, l: Layout) -> *mut u8 {
        MAX_REQ.fetch_max(l.size(), Ordering::Relaxed);
        if l.size() > (1usize << 33) { return std::ptr::null_mut(); }
        System.alloc(l)
    }
    unsafe fn dealloc(&self, p: *mut u8, l: Layout) { System.dealloc(p, l) }
    unsafe fn alloc_zeroed(&self, l: Layout) -> *mut u8 {
        MAX_REQ.fetch_max(l.size(), Ordering::Relaxed);
        if l.size() > (1usize << 33) { return std::ptr::null_mut(); }
        System.alloc_zeroed(l)
    }
    unsafe fn realloc(&self, p: *mut u8, l: Layout, n: usize) -> *mut u8 {
        MAX_REQ.fetch_max(n, Ordering::Relaxed);
        if n > (1usize << 33) { return std::ptr::null_mut(); }
        System.realloc(p, l, n)
    }
}
#[global_allocator]
static GLOBAL: Tracking = Tracking;

#[path = "/repo/src/bin/copia/plan.rs"]
mod plan;
#[path = "/repo/src/bin/copia/reconcile.rs"]
mod reconcile;
mod transfer {
    use std::path::{Path, PathBuf};
    /// recursive listing of regular files and symlinks, relative to root (stand-in for the CLI's walker)
    pub fn discover_local_files(root: &Path) -> Result<Vec<PathBuf>, Box<dyn std::error::Error>> {
        fn walk(root: &Path, dir: &Path, out: &mut Vec<PathBuf>) -> std::io::Result<()> {
            for e in std::fs::read_dir(dir)? {
                let e = e?;
                let p = e.path();
                if e.file_type()?.is_dir() {
                    walk(root, &p, out)?;
                } else {
                    out.push(p.strip_prefix(root).unwrap().to_path_buf());
                }
            }
            Ok(())
        }
        let mut out = Vec::new();
        walk(root, root, &mut out)?;
        Ok(out)
    }
}
#[path = "/repo/src/bin/copia/meta.rs"]
mod meta;
#[path = "/repo/src/bin/copia/wire.rs"]
mod wire;
#[path = "gen_serve.rs"]
mod serve;
#[path = "gen_archive.rs"]
mod archive;
#[path = "gen_bidir.rs"]
mod bidir;
#[path = "/repo/src/bin/copia/hub.rs"]
mod hub;

use serve::verif_wrap as sv;

fn hex(b: &[u8]) -> String {
    b.iter().map(|x| format!("{x:02x}")).collect()
}
fn unhex(s: &str) -> Vec<u8> {
    (0..s.len() / 2).map(|i| u8::from_str_radix(&s[2 * i..2 * i + 2], 16).unwrap()).collect()
}

struct Chunked<'a> {
    data: &'a [u8],
    pos: usize,
    chunk: usize,
}
impl<'a> Read for Chunked<'a> {
    fn read(&mut self, buf: &mut [u8]) -> std::io::Result<usize> {
        let n = buf.len().min(self.data.len() - self.pos).min(self.chunk.max(1));
        buf[..n].copy_from_slice(&self.data[self.pos..self.pos + n]);
        self.pos += n;
        Ok(n)
    }
}

fn tree_of(root: &Path) -> BTreeMap<String, String> {
    let mut out = BTreeMap::new();
    fn walk(root: &Path, dir: &Path, out: &mut BTreeMap<String, String>) {
        if let Ok(rd) = std::fs::read_dir(dir) {
            for e in rd.flatten() {
                let p = e.path();
                if p.is_dir() {
                    walk(root, &p, out);
                } else {
                    let rel = p.strip_prefix(root).unwrap().to_string_lossy().into_owned();
                    out.insert(rel, hex(&std::fs::read(&p).unwrap_or_default()));
                }
            }
        }
    }
    walk(root, root, &mut out);
    out
}

fn write_tree(root: &Path, tree: &Value) {
    if let Some(m) = tree.as_object() {
        for (k, v) in m {
            let p = root.join(k);
            if let Some(d) = p.parent() {
                std::fs::create_dir_all(d).unwrap();
            }
            std::fs::write(&p, unhex(v.as_str().unwrap())).unwrap();
        }
    }
}

fn opt_hash(v: &Value, current: Option<[u8; 32]>) -> Option<[u8; 32]> {
    match v {
        Value::Null => None,
        Value::String(s) if s == "CURRENT" => current,
        Value::String(s) if s == "STALE" => Some([0x5a; 32]),
        Value::String(s) => {
            let b = unhex(s);
            let mut h = [0u8; 32];
            h.copy_from_slice(&b[..32]);
            Some(h)
        }
        _ => None,
    }
}

/// frames decoded from the writer, and whatever raw bytes follow the last complete frame (streamed content)
fn decode_replies(buf: &[u8]) -> (Vec<String>, Vec<u8>) {
    let mut out = Vec::new();
    let mut pos = 0usize;
    while buf.len() - pos >= 4 && out.len() < 8 {
        let len = u32::from_be_bytes([buf[pos], buf[pos + 1], buf[pos + 2], buf[pos + 3]]) as usize;
        if buf.len() - pos - 4 < len {
            break;
        }
        let mut r = &buf[pos..pos + 4 + len];
        match wire::read_frame::<_, wire::Response>(&mut r) {
            Ok(Some(m)) => out.push(format!("{m:?}")),
            _ => break,
        }
        pos += 4 + len;
        // a Content header is followed by raw bytes, not by another frame
        if out.last().map_or(false, |s| s.starts_with("Content")) {
            break;
        }
    }
    (out, buf[pos..].to_vec())
}

/// one hub request against a fresh tree: {"tree": {...}, "op": "put"|"delete"|"get", "path", "expected", "len", "hash", "content", "trailing", "chunk"}
fn hub_step(case: &Value, base: &Path) -> Value {
    let world = base.join("world");
    let _ = std::fs::remove_dir_all(&world);
    let root = world.join("root");
    let lockdir = root.join(".copia");
    std::fs::create_dir_all(&lockdir).unwrap();
    std::fs::create_dir_all(world.join("outside")).unwrap();
    std::fs::write(world.join("outside").join("sentinel"), b"outside").unwrap();
    write_tree(&root, &case["tree"]);
    if case.get("only_setup").and_then(Value::as_bool) == Some(true) {
        return json!({"setup": true});
    }
    let path_owned = case["path"].as_str().unwrap_or("").replace("@ROOT@", root.to_str().unwrap());
    let path = path_owned.as_str();
    let cur_bytes = std::fs::read(root.join(path)).ok();
    let current = cur_bytes.as_ref().map(|b| *blake3::hash(b).as_bytes());
    let expected = opt_hash(&case["expected"], current);
    let content = unhex(case["content"].as_str().unwrap_or(""));
    let trailing = unhex(case["trailing"].as_str().unwrap_or(""));
    let content_hash = *blake3::hash(&content).as_bytes();
    let hash = match case["hash"].as_str().unwrap_or("CONTENT") {
        "CONTENT" => content_hash,
        "WRONG" => {
            let mut h = content_hash;
            h[31] ^= 1;
            h
        }
        s => {
            let mut h = [0u8; 32];
            h.copy_from_slice(&unhex(s)[..32]);
            h
        }
    };
    let len = case["len"].as_u64().unwrap_or(content.len() as u64);
    let mut stream = content.clone();
    stream.extend_from_slice(&trailing);
    let mut rd = Chunked { data: &stream, pos: 0, chunk: case["chunk"].as_u64().unwrap_or(1 << 20) as usize };
    let mut w: Vec<u8> = Vec::new();
    let r = match case["op"].as_str().unwrap_or("") {
        "put" => sv::v_put(&root, &lockdir, path, expected, len, hash, &mut rd, &mut w),
        "delete" => sv::v_delete(&root, &lockdir, path, expected, &mut w),
        "get" => sv::v_get(&root, path, &mut w),
        "safe_join" => {
            let j = sv::v_safe_join(Path::new("/srv/hub"), path);
            return json!({"result": j.map(|p| p.to_string_lossy().into_owned())});
        }
        other => return json!({"error": format!("unknown op {other}")}),
    };
    let mut tree_after = tree_of(&root);
    tree_after.remove(".copia/commit.lock");
    let outside: Vec<String> = tree_of(&world).into_keys().filter(|k| !k.starts_with("root/")).collect();
    json!({
        "ok": r.is_ok(), "err": r.err().map(|e| e.to_string()),
        "replies": decode_replies(&w).0, "raw_after_replies": hex(&decode_replies(&w).1), "reply_bytes": w.len(),
        "consumed": rd.pos, "tree_after": tree_after, "outside": outside,
        "content_hash": hex(&hash), "current_before": current.map(|h| hex(&h)),
    })
}

/// wire::read_frame / read_magic on raw bytes: {"fn":"frame_read","prefix":[..],"body_len":n,"fill":b,"chunk":k,"what":"frame"|"magic"}
fn frame_read(case: &Value) -> Value {
    let mut wire: Vec<u8> = case["prefix"].as_array().map(|a| a.iter().map(|x| x.as_u64().unwrap() as u8).collect()).unwrap_or_default();
    let n = case["body_len"].as_u64().unwrap_or(0) as usize;
    let fill = case["fill"].as_u64().unwrap_or(0) as u8;
    wire.extend(std::iter::repeat(fill).take(n));
    if let Some(h) = case["body_hex"].as_str() {
        wire.extend(unhex(h));
    }
    if case["what"].as_str() == Some("inflated") {
        // a COMPLETE, valid request item whose length prefix announces `slack` more bytes than arrive before EOF
        let mut f = Vec::new();
        wire::write_frame(&mut f, &wire::Request::Delete { path: "keep.txt".into(), expected: None }).unwrap();
        let n = u32::from_be_bytes([f[0], f[1], f[2], f[3]]) + case["slack"].as_u64().unwrap_or(64) as u32;
        f[0..4].copy_from_slice(&n.to_be_bytes());
        wire = f;
    }
    let mut rd = Chunked { data: &wire, pos: 0, chunk: case["chunk"].as_u64().unwrap_or(1 << 20) as usize };
    MAX_REQ.store(0, Ordering::Relaxed);
    if case["what"].as_str() == Some("magic") {
        let r = wire::read_magic(&mut rd);
        return json!({"result": match r { Ok(b) => format!("Ok({b})"), Err(e) => format!("Err({})", e.kind()) }, "consumed": rd.pos, "max_alloc": MAX_REQ.load(Ordering::Relaxed)});
    }
    let r = wire::read_frame::<_, wire::Request>(&mut rd);
    let max_alloc = MAX_REQ.load(Ordering::Relaxed);
    let out = match r {
        Ok(Some(m)) => format!("Some({m:?})"),
        Ok(None) => "None".to_string(),
        Err(e) => format!("Err({})", e),
    };
    json!({"result": out, "consumed": rd.pos, "max_alloc": max_alloc, "wire_len": wire.len()})
}

/// write_frame then read_frame of sample requests through a chunked reader
fn frame_roundtrip(case: &Value) -> Value {
    let chunk = case["chunk"].as_u64().unwrap_or(1) as usize;
    let msgs = vec![
        wire::Request::Hello { version: 1 },
        wire::Request::List,
        wire::Request::Get { path: "a/b".into() },
        wire::Request::Put { path: "p".into(), expected: Some([7; 32]), len: 3, hash: [9; 32] },
        wire::Request::Delete { path: "q".into(), expected: None },
        wire::Request::Bye,
    ];
    let mut wire_b = Vec::new();
    for m in &msgs {
        wire::write_frame(&mut wire_b, m).unwrap();
    }
    let mut rd = Chunked { data: &wire_b, pos: 0, chunk };
    let mut bad = Vec::new();
    for (i, m) in msgs.iter().enumerate() {
        match wire::read_frame::<_, wire::Request>(&mut rd) {
            Ok(Some(g)) if format!("{g:?}") == format!("{m:?}") => {}
            other => { bad.push(json!({"frame": i, "got": format!("{other:?}")})); break; }
        }
    }
    let end = wire::read_frame::<_, wire::Request>(&mut rd);
    json!({"equal": bad.is_empty() && matches!(end, Ok(None)), "mismatches": bad})
}

fn fp_json(root: &Path) -> Value {
    let m = meta::discover_local_fingerprints(root).unwrap_or_default();
    let mut o = serde_json::Map::new();
    for (p, f) in m {
        let content = std::fs::read(root.join(&p)).unwrap_or_default();
        o.insert(p.to_string_lossy().into_owned(), json!({"b3": hex(&f.blake3), "data": hex(&content), "ftype": format!("{:?}", f.ftype)}));
    }
    Value::Object(o)
}

fn action_of(s: &str) -> reconcile::Action {
    use reconcile::{Action, ConflictKind};
    match s {
        "Noop" => Action::Noop,
        "PropagateAtoB" => Action::PropagateAtoB,
        "PropagateBtoA" => Action::PropagateBtoA,
        "ConvergeIdentical" => Action::ConvergeIdentical,
        "DeleteA" => Action::DeleteA,
        "DeleteB" => Action::DeleteB,
        "Conflict(BothChanged)" => Action::Conflict(ConflictKind::BothChanged),
        _ => Action::Conflict(ConflictKind::DeleteVsModify),
    }
}

/// one apply step: {"a": {path: hex}, "b": {...}, "rel": "...", "action": "...", "host": "h"}
fn bisync_apply(case: &Value, base: &Path) -> Value {
    let world = base.join("bworld");
    let _ = std::fs::remove_dir_all(&world);
    let (ra, rb) = (world.join("A"), world.join("B"));
    std::fs::create_dir_all(&ra).unwrap();
    std::fs::create_dir_all(&rb).unwrap();
    write_tree(&ra, &case["a"]);
    write_tree(&rb, &case["b"]);
    let a = meta::discover_local_fingerprints(&ra).unwrap_or_default();
    let b = meta::discover_local_fingerprints(&rb).unwrap_or_default();
    let before = json!({"A": fp_json(&ra), "B": fp_json(&rb)});
    let mut common = reconcile::FpMap::new();
    let mut conflicts = Vec::new();
    let rel = PathBuf::from(case["rel"].as_str().unwrap());
    let r = bidir::verif_wrap::v_apply(&ra, &rb, &rel, action_of(case["action"].as_str().unwrap()), &a, &b, case["host"].as_str().unwrap_or("vhost"), &mut common, &mut conflicts);
    let common_j: BTreeMap<String, String> = common.iter().map(|(p, f)| (p.to_string_lossy().into_owned(), hex(&f.blake3))).collect();
    json!({"ok": r.is_ok(), "err": r.err().map(|e| e.to_string()), "before": before, "A": tree_of(&ra), "B": tree_of(&rb), "common": common_j,
           "conflicts": conflicts.iter().map(|p| p.to_string_lossy().into_owned()).collect::<Vec<_>>()})
}

/// a history: steps [{"set": ["A", path, hex|null]}, {"run": true}, {"archive": "delete"|"truncate"|"garbage"|"foreign"|"version"|"empty"}, {"swap": true}]
fn bisync_history(case: &Value, base: &Path) -> Value {
    let world = base.join("hworld");
    let _ = std::fs::remove_dir_all(&world);
    let (ra, rb, home) = (world.join("A"), world.join("B"), world.join("home"));
    for d in [&ra, &rb, &home] {
        std::fs::create_dir_all(d).unwrap();
    }
    std::env::set_var("HOME", &home);
    std::env::set_var("HOSTNAME", "vhost");
    let mut runs = Vec::new();
    let mut swapped = false;
    for step in case["steps"].as_array().unwrap() {
        if let Some(s) = step.get("set_ranked") {
            // content chosen by the RANK of its blake3 among a fixed pool (so a history can say "the smaller digest")
            let mut pool: Vec<String> = (0..12).map(|i| format!("pool-content-{i}\n")).collect();
            pool.sort_by_key(|c| *blake3::hash(c.as_bytes()).as_bytes());
            let root = if s[0].as_str() == Some("A") { &ra } else { &rb };
            let p = root.join(s[1].as_str().unwrap());
            if let Some(d) = p.parent() {
                std::fs::create_dir_all(d).unwrap();
            }
            std::fs::write(&p, pool[s[2].as_u64().unwrap() as usize].as_bytes()).unwrap();
        } else if let Some(s) = step.get("edit_conflict") {
            // rewrite the (first) conflict copy of a path on one side
            let root = if s[0].as_str() == Some("A") { &ra } else { &rb };
            let prefix = format!("{}.conflict-", s[1].as_str().unwrap());
            let names: Vec<String> = tree_of(root).into_keys().filter(|k| k.starts_with(&prefix)).collect();
            if let Some(n) = names.first() {
                std::fs::write(root.join(n), unhex(s[2].as_str().unwrap())).unwrap();
            }
        } else if let Some(s) = step.get("dir_to_file") {
            // a directory is replaced by a regular file of the same name
            let root = if s[0].as_str() == Some("A") { &ra } else { &rb };
            let p = root.join(s[1].as_str().unwrap());
            let _ = std::fs::remove_dir_all(&p);
            std::fs::write(&p, unhex(s[2].as_str().unwrap())).unwrap();
        } else if let Some(s) = step.get("set") {
            let root = if s[0].as_str() == Some("A") { &ra } else { &rb };
            let p = root.join(s[1].as_str().unwrap());
            if s[2].is_null() {
                let _ = std::fs::remove_file(&p);
            } else {
                if let Some(d) = p.parent() {
                    std::fs::create_dir_all(d).unwrap();
                }
                std::fs::write(&p, unhex(s[2].as_str().unwrap())).unwrap();
            }
        } else if step.get("swap").is_some() {
            swapped = !swapped;
        } else if let Some(how) = step.get("archive").and_then(Value::as_str) {
            let (x, y) = if swapped { (&rb, &ra) } else { (&ra, &rb) };
            let ap = archive::archive_path(&archive::root_pair_hash(x, y));
            match how {
                "delete" => { let _ = std::fs::remove_file(&ap); }
                "empty" => { let _ = std::fs::write(&ap, b""); }
                "truncate" => { if let Ok(b) = std::fs::read(&ap) { let _ = std::fs::write(&ap, &b[..b.len() / 2]); } }
                "garbage" => { let _ = std::fs::write(&ap, b"{\"not\": \"an archive\"}"); }
                "version0" => { if let Ok(t) = std::fs::read_to_string(&ap) { let _ = std::fs::write(&ap, t.replace("\"format_version\": 1", "\"format_version\": 0")); } }
                "version" => { if let Ok(t) = std::fs::read_to_string(&ap) { let _ = std::fs::write(&ap, t.replace("\"format_version\": 1", "\"format_version\": 2")); } }
                // an archive whose recorded pair id is NOT this pair's: a proper prefix of it, or blank
                "pair_prefix" | "pair_blank" => { if let Ok(t) = std::fs::read_to_string(&ap) {
                    let me = archive::root_pair_hash(x, y);
                    let other = if how == "pair_blank" { String::new() } else { me[..16].to_string() };
                    let _ = std::fs::write(&ap, t.replace(&me, &other)); } }
                "foreign" => { if let Ok(t) = std::fs::read_to_string(&ap) {
                    let me = archive::root_pair_hash(x, y);
                    let _ = std::fs::write(&ap, t.replace(&me, &"0".repeat(me.len()))); } }
                _ => {}
            }
        } else if step.get("run").is_some() {
            let (x, y) = if swapped { (&rb, &ra) } else { (&ra, &rb) };
            let before = json!({"A": fp_json(&ra), "B": fp_json(&rb)});
            let opts = bidir::BidirOptions { dry_run: step["run"].as_str() == Some("dry"), verbose: false };
            let r = bidir::run_bisync(x, y, &opts);
            let ap = archive::archive_path(&archive::root_pair_hash(x, y));
            let arch: Value = std::fs::read(&ap).ok().and_then(|b| serde_json::from_slice(&b).ok()).unwrap_or(Value::Null);
            let entries: Vec<String> = arch.get("entries").and_then(Value::as_object).map(|m| m.keys().cloned().collect()).unwrap_or_default();
            let digests: BTreeMap<String, String> = arch.get("entries").and_then(Value::as_object).map(|m| m.iter().map(|(k, v)| {
                let b: Vec<u8> = v["blake3"].as_array().map(|a| a.iter().map(|x| x.as_u64().unwrap_or(0) as u8).collect()).unwrap_or_default();
                (k.clone(), hex(&b))
            }).collect()).unwrap_or_default();
            runs.push(json!({"ok": r.is_ok(), "err": r.err().map(|e| e.to_string()), "before": before, "A": fp_json(&ra), "B": fp_json(&rb),
                             "archive_entries": entries, "archive_digests": digests, "archive_epoch": arch.get("epoch").cloned().unwrap_or(Value::Null), "swapped": swapped}));
        }
    }
    json!({"runs": runs})
}

/// the real hub_sync (client) against the real serve() loop (this binary re-spawned as `serve <root>`), twice
fn hub_sync_case(case: &Value, base: &Path) -> Value {
    let world = base.join("sworld");
    let _ = std::fs::remove_dir_all(&world);
    let (local, hubroot) = (world.join("local"), world.join("hub"));
    std::fs::create_dir_all(&local).unwrap();
    std::fs::create_dir_all(&hubroot).unwrap();
    write_tree(&local, &case["local"]);
    write_tree(&hubroot, &case["hub"]);
    let mut out = serde_json::Map::new();
    for round in ["first", "second"] {
        let before = tree_of(&hubroot);
        let r = hub::hub_sync(&local, hubroot.to_str().unwrap());
        let mut after = tree_of(&hubroot);
        after.retain(|k, _| !k.starts_with(".copia/"));
        let puts: Vec<String> = after.iter().filter(|(k, v)| before.get(*k) != Some(*v)).map(|(k, _)| k.clone()).collect();
        out.insert(round.to_string(), json!({"ok": r.is_ok(), "err": r.err().map(|e| e.to_string()), "puts": puts}));
        if round == "first" {
            out.insert("hub_after_first".to_string(), json!(after));
        }
    }
    Value::Object(out)
}

/// root_pair_hash on probe pairs that must all get different ids (non-UTF-8 names, swapped order, shifted boundary)
fn pair_hash_case(base: &Path) -> Value {
    use std::os::unix::ffi::OsStrExt;
    let world = base.join("pworld");
    let _ = std::fs::remove_dir_all(&world);
    std::fs::create_dir_all(&world).unwrap();
    let mk = |name: &[u8]| -> PathBuf {
        let p = world.join(std::ffi::OsStr::from_bytes(name));
        std::fs::create_dir_all(&p).unwrap();
        p
    };
    let pairs: Vec<(PathBuf, PathBuf)> = vec![
        (mk(b"docs-\xe9-a"), mk(b"docs-\xe9-b")),
        (mk(b"docs-\xe8-a"), mk(b"docs-\xe8-b")),
        (mk(b"x"), mk(b"y")),
        (mk(b"xy"), mk(b"z")),
        (mk(b"x"), mk(b"yz")),
        (world.join("missing-1"), world.join("missing-2")),
        (world.join("missing-\u{e9}"), world.join("missing-2")),
    ];
    let ids: Vec<String> = pairs.iter().map(|(a, b)| archive::root_pair_hash(a, b)).collect();
    let mut collisions = Vec::new();
    for i in 0..ids.len() {
        for j in i + 1..ids.len() {
            if ids[i] == ids[j] {
                collisions.push(json!([pairs[i].0.to_string_lossy(), pairs[j].0.to_string_lossy()]));
            }
        }
    }
    let order_sensitive = archive::root_pair_hash(&pairs[2].0, &pairs[2].1) != archive::root_pair_hash(&pairs[2].1, &pairs[2].0);
    // a root named through a SYMLINK is the directory it points to: same id as that directory, another id once the link is re-pointed
    let (t1, t2, m) = (mk(b"target-1"), mk(b"target-2"), mk(b"mirror"));
    let link = world.join("current");
    let _ = std::fs::remove_file(&link);
    let _ = std::os::unix::fs::symlink(&t1, &link);
    let via_link_1 = archive::root_pair_hash(&link, &m);
    let direct_1 = archive::root_pair_hash(&t1, &m);
    let _ = std::fs::remove_file(&link);
    let _ = std::os::unix::fs::symlink(&t2, &link);
    let via_link_2 = archive::root_pair_hash(&link, &m);
    if via_link_1 == via_link_2 {
        collisions.push(json!(["current -> target-1", "current -> target-2 (the same link name, another directory)"]));
    }
    json!({"collisions": collisions, "order_sensitive": order_sensitive, "ids": ids.len(), "symlink_follows_target": via_link_1 == direct_1})
}

fn run_case(case: &Value, base: &Path) -> Value {
    match case["fn"].as_str().unwrap_or("") {
        "pair_hash" => pair_hash_case(base),
        "short_names" => {
            // the two helpers that name conflict copies, on a given 32-byte digest
            let mut h = [0u8; 32];
            for (i, v) in case["digest"].as_array().cloned().unwrap_or_default().iter().enumerate().take(32) {
                h[i] = v.as_u64().unwrap_or(0) as u8;
            }
            json!({"short_hex": bidir::verif_wrap::v_short_hex(&h), "short_hash": wire::short_hash(&h)})
        }
        "hub_sync" => hub_sync_case(case, base),
        "bisync_apply" => bisync_apply(case, base),
        "bisync_history" => bisync_history(case, base),
        "frame_read" => frame_read(case),
        "frame_roundtrip" => frame_roundtrip(case),
        "hub_step" => hub_step(case, base),
        other => json!({"error": format!("unknown fn {other}")}),
    }
}

fn main() {
    let args: Vec<String> = std::env::args().collect();
    if args.len() == 3 && args[1] == "serve" {
        // the hub end of HubClient::connect(<local path>): the REAL serve loop on this process's stdin/stdout
        if let Err(e) = serve::serve(Path::new(&args[2])) {
            eprintln!("serve: {e}");
            std::process::exit(1);
        }
        return;
    }
    let base = std::env::temp_dir().join(format!("copia-verif-hub-{}", std::process::id()));
    let _ = std::fs::remove_dir_all(&base);
    std::fs::create_dir_all(&base).unwrap();
    std::panic::set_hook(Box::new(|_| {}));
    let stdin = std::io::stdin();
    let stdout = std::io::stdout();
    for line in stdin.lock().lines() {
        let line = line.unwrap();
        if line.trim().is_empty() {
            continue;
        }
        let case: Value = match serde_json::from_str(&line) {
            Ok(v) => v,
            Err(e) => {
                println!("{}", json!({"error": format!("bad case: {e}")}));
                continue;
            }
        };
        let res = match catch_unwind(AssertUnwindSafe(|| run_case(&case, &base))) {
            Ok(v) => v,
            Err(p) => {
                let msg = p.downcast_ref::<String>().cloned().or_else(|| p.downcast_ref::<&str>().map(|s| s.to_string())).unwrap_or_default();
                json!({"panic": msg})
            }
        };
        let mut o = stdout.lock();
        writeln!(o, "{res}").unwrap();
        o.flush().unwrap();
    }
    if std::env::var("VERIF_KEEP_WORLD").is_err() {
        let _ = std::fs::remove_dir_all(&base);
    }
}
