
// ---- appended by /verif (check-time copy): re-exports of the private functions for the native oracle
pub mod verif_wrap {
    use super::*;
    #[allow(clippy::too_many_arguments)]
    pub fn v_apply(root_a: &Path, root_b: &Path, rel: &Path, act: Action, a: &FpMap, b: &FpMap, host: &str, common: &mut FpMap, conflicts: &mut Vec<PathBuf>) -> std::io::Result<()> {
        apply(root_a, root_b, rel, act, a, b, host, common, conflicts)
    }
    pub fn v_copy_atomic(src: &Path, dst: &Path) -> std::io::Result<()> {
        copy_atomic(src, dst)
    }
    pub fn v_short_hex(h: &[u8; 32]) -> String {
        short_hex(h)
    }
}
