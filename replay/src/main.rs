//! Native oracle / replay binary: runs the REAL copia code on JSON cases (one per line on stdin),
//! prints one JSON result per line.  Built in dev (overflow checks + debug assertions, what the
//! test-suite and Kani see) and release (what users run).
#![allow(dead_code, clippy::all)]

use std::io::{BufRead, Cursor, Write};
use std::panic::{catch_unwind, AssertUnwindSafe};
use std::path::PathBuf;

use copia::async_sync::AsyncCopiaSync;
use copia::Sync as _;
use copia::{
    CopiaSync, Delta, DeltaOp, FastRollingChecksum, RollingChecksum, Signature,
    StrongHash, SyncBuilder,
};
use serde_json::{json, Value};
use std::alloc::{GlobalAlloc, Layout, System};
use std::sync::atomic::{AtomicUsize, Ordering};

/// allocation-tracking allocator: the largest single request since the last reset (for the C20 allocation bound)
struct Tracking;
static MAX_REQ: AtomicUsize = AtomicUsize::new(0);
unsafe impl GlobalAlloc for Tracking {
    unsafe fn alloc(&self, l: Layout) -> *mut u8 {
        MAX_REQ.fetch_max(l.size(), Ordering::Relaxed);
        if l.size() > (1usize << 33) { return std::ptr::null_mut(); }
        System.alloc(l)
    }
    unsafe fn dealloc(&self, p: *mut u8, l: Layout) { System.dealloc(p, l) }
    unsafe fn alloc_zeroed(&self, l: Layout) -> *mut u8 {
        MAX_REQ.fetch_max(l.size(), Ordering::Relaxed);
        if l.size() > (1usize << 33) { return std::ptr::null_mut(); }
        System.alloc_zeroed(l)
    }
    unsafe fn realloc(&self, p: *mut u8, l: Layout, n: usize) -> *mut u8 {
        MAX_REQ.fetch_max(n, Ordering::Relaxed);
        if n > (1usize << 33) { return std::ptr::null_mut(); }
        System.realloc(p, l, n)
    }
}
#[global_allocator]
static GLOBAL: Tracking = Tracking;

#[path = "/repo/src/bin/copia/plan.rs"]
mod plan;
#[path = "/repo/src/bin/copia/reconcile.rs"]
mod reconcile;

/// `meta.rs` pulls in the whole CLI (transfer, ssh); the two mtime helpers are exercised through a copy-free
/// include of the real file in a private module tree that supplies the sibling modules it names.
mod bin_meta {
    pub(crate) use super::plan;
    pub(crate) use super::reconcile;
    pub mod transfer {
        use std::path::{Path, PathBuf};
        pub fn discover_local_files(root: &Path) -> Result<Vec<PathBuf>, Box<dyn std::error::Error>> {
            let mut out = Vec::new();
            for e in std::fs::read_dir(root)? {
                let e = e?;
                if e.file_type()?.is_file() {
                    out.push(PathBuf::from(e.file_name()));
                }
            }
            Ok(out)
        }
    }
    #[path = "/repo/src/bin/copia/meta.rs"]
    pub mod meta;
}

fn bytes_of(v: &Value) -> Vec<u8> {
    // either [b, b, ...] or {"runs": [[count, byte], ...]}
    if let Some(runs) = v.get("runs") {
        let mut out = Vec::new();
        for r in runs.as_array().unwrap() {
            let n = r[0].as_u64().unwrap() as usize;
            let b = r[1].as_u64().unwrap() as u8;
            out.extend(std::iter::repeat(b).take(n));
        }
        out
    } else {
        v.as_array().unwrap().iter().map(|x| x.as_u64().unwrap() as u8).collect()
    }
}

fn hex(b: &[u8]) -> String {
    b.iter().map(|x| format!("{x:02x}")).collect()
}

fn unhex(s: &str) -> Vec<u8> {
    (0..s.len() / 2).map(|i| u8::from_str_radix(&s[2 * i..2 * i + 2], 16).unwrap()).collect()
}

fn block_on<F: std::future::Future>(f: F) -> F::Output {
    tokio::runtime::Builder::new_current_thread().build().unwrap().block_on(f)
}

// ---------------------------------------------------------------- checksum histories

fn checksum(case: &Value) -> Value {
    let ty = case["ty"].as_str().unwrap();
    let ops = case["ops"].as_array().unwrap();
    let mut r32 = RollingChecksum::empty();
    let mut r64 = FastRollingChecksum::empty();
    for op in ops {
        let k = op[0].as_str().unwrap();
        match k {
            "new" => {
                let w = bytes_of(&op[1]);
                if ty == "rolling" { r32 = RollingChecksum::new(&w) } else { r64 = FastRollingChecksum::new(&w) }
            }
            "empty" => {
                if ty == "rolling" { r32 = RollingChecksum::empty() } else { r64 = FastRollingChecksum::empty() }
            }
            "roll" => {
                let (o, n) = (op[1].as_u64().unwrap() as u8, op[2].as_u64().unwrap() as u8);
                let times = op.get(3).and_then(Value::as_u64).unwrap_or(1);
                for _ in 0..times {
                    if ty == "rolling" { r32.roll(o, n) } else { r64.roll(o, n) }
                }
            }
            "push" => {
                let b = op[1].as_u64().unwrap() as u8;
                let times = op.get(2).and_then(Value::as_u64).unwrap_or(1);
                for _ in 0..times {
                    if ty == "rolling" { r32.push(b) } else { r64.push(b) }
                }
            }
            // slide the window over `data`: window = data[i..i+n], roll to the end
            "slide" => {
                let data = bytes_of(&op[1]);
                let n = op[2].as_u64().unwrap() as usize;
                if ty == "rolling" { r32 = RollingChecksum::new(&data[..n]) } else { r64 = FastRollingChecksum::new(&data[..n]) }
                for i in 0..data.len() - n {
                    if ty == "rolling" { r32.roll(data[i], data[i + n]) } else { r64.roll(data[i], data[i + n]) }
                }
            }
            _ => return json!({"error": format!("unknown op {k}")}),
        }
    }
    if ty == "rolling" {
        json!({"digest": r32.digest(), "len": r32.len(), "a": r32.sum_a(), "b": r32.sum_b()})
    } else {
        json!({"digest": r64.digest(), "len": r64.len()})
    }
}

// ---------------------------------------------------------------- delta / patch

fn ops_json(d: &Delta) -> Value {
    Value::Array(
        d.ops
            .iter()
            .map(|op| match op {
                DeltaOp::Copy { offset, len } => json!({"copy": [offset, len]}),
                DeltaOp::Literal(b) => json!({"lit": b}),
            })
            .collect(),
    )
}

fn sig_json(s: &Signature) -> Value {
    json!({"block_size": s.block_size, "file_size": s.file_size,
           "blocks": s.blocks.iter().map(|b| json!([b.index, b.weak_hash, hex(b.strong_hash.as_bytes())])).collect::<Vec<_>>()})
}

fn delta_case(case: &Value) -> Value {
    let basis = bytes_of(&case["basis"]);
    let source = bytes_of(&case["source"]);
    let bs = case["bs"].as_u64().unwrap() as usize;
    let engine = case["engine"].as_str().unwrap_or("sync");
    let sig = Signature::generate(&mut Cursor::new(&basis), bs).unwrap();
    let (delta, out, patch_res) = if engine == "async" {
        let eng = AsyncCopiaSync::new();
        let delta = match block_on(eng.delta(&source[..], &sig)) {
            Ok(d) => d,
            Err(e) => return json!({"delta_err": e.to_string()}),
        };
        let mut out = Vec::new();
        let r = block_on(eng.patch(Cursor::new(basis.clone()), &delta, &mut out));
        (delta, out, r.map_err(|e| e.to_string()))
    } else {
        let eng = CopiaSync::new();
        let delta = match eng.delta(Cursor::new(&source), &sig) {
            Ok(d) => d,
            Err(e) => return json!({"delta_err": e.to_string()}),
        };
        let mut out = Vec::new();
        let r = eng.patch(Cursor::new(&basis), &delta, &mut out);
        (delta, out, r.map_err(|e| e.to_string()))
    };
    json!({
        "ops": ops_json(&delta),
        "source_size": delta.source_size,
        "basis_size": delta.basis_size,
        "block_size": delta.block_size,
        "checksum_ok": delta.checksum == StrongHash::compute(&source),
        "bytes_literal": delta.bytes_literal(),
        "bytes_matched": delta.bytes_matched(),
        "patch": match patch_res { Ok(()) => json!("ok"), Err(e) => json!({"err": e}) },
        "roundtrip": out == source,
        "sig": if case.get("want_sig").is_some() { sig_json(&sig) } else { Value::Null },
    })
}

fn mk_delta(case: &Value) -> Delta {
    let d = &case["delta"];
    let mut delta = Delta::new(
        d["block_size"].as_u64().unwrap() as u32,
        d["source_size"].as_u64().unwrap(),
        d["basis_size"].as_u64().unwrap(),
    );
    for op in d["ops"].as_array().unwrap() {
        if let Some(c) = op.get("copy") {
            delta.ops.push(DeltaOp::Copy { offset: c[0].as_u64().unwrap(), len: c[1].as_u64().unwrap() as u32 });
        } else {
            delta.ops.push(DeltaOp::Literal(bytes_of(&op["lit"])));
        }
    }
    if let Some(of) = d.get("checksum_of") {
        // checksum := real BLAKE3 of the given bytes (models found under the hash shim are re-keyed)
        let mut h = *StrongHash::compute(&bytes_of(of)).as_bytes();
        if let Some(fl) = d.get("checksum_flip").and_then(Value::as_array) {
            for i in fl {
                h[i.as_u64().unwrap() as usize] ^= 0xFF;
            }
        }
        delta.checksum = StrongHash::from_bytes(h);
    } else {
        let ck = unhex(d["checksum"].as_str().unwrap());
        let mut a = [0u8; 32];
        a.copy_from_slice(&ck);
        delta.checksum = StrongHash::from_bytes(a);
    }
    delta
}

fn patch_case(case: &Value) -> Value {
    let basis = bytes_of(&case["basis"]);
    let delta = mk_delta(case);
    let verify = case.get("verify").and_then(Value::as_bool).unwrap_or(true);
    let engine = case["engine"].as_str().unwrap_or("sync");
    let mut out = Vec::new();
    let r = if engine == "async" {
        // AsyncCopiaSync has no verify switch other than its config default (true)
        block_on(AsyncCopiaSync::new().patch(Cursor::new(basis.clone()), &delta, &mut out)).map_err(|e| e.to_string())
    } else {
        SyncBuilder::new().verify_checksum(verify).build().patch(Cursor::new(&basis), &delta, &mut out).map_err(|e| e.to_string())
    };
    json!({
        "result": match r { Ok(()) => json!("ok"), Err(e) => json!({"err": e}) },
        "output": out,
        "hash_matches": StrongHash::compute(&out) == delta.checksum,
    })
}

// ---------------------------------------------------------------- plan / reconcile

fn meta_map(v: &Value) -> plan::MetaMap {
    v.as_array()
        .unwrap()
        .iter()
        .map(|e| (PathBuf::from(e[0].as_str().unwrap()), plan::FileMeta { size: e[1].as_u64().unwrap(), mtime: e[2].as_i64().unwrap() }))
        .collect()
}

fn paths(v: &[PathBuf]) -> Value {
    Value::Array(v.iter().map(|p| json!(p.to_string_lossy())).collect())
}

fn fp(v: &Value) -> Option<reconcile::Fingerprint> {
    if v.is_null() {
        return None;
    }
    let b = unhex(v[0].as_str().unwrap());
    let mut a = [0u8; 32];
    a.copy_from_slice(&b);
    Some(reconcile::Fingerprint { blake3: a, ftype: if v[1].as_u64().unwrap() == 0 { reconcile::FileType::File } else { reconcile::FileType::Symlink } })
}

fn fpmap(v: &Value) -> reconcile::FpMap {
    v.as_array().unwrap().iter().map(|e| (PathBuf::from(e[0].as_str().unwrap()), fp(&e[1]).unwrap())).collect()
}

/// definition of the digest in 128-bit arithmetic (independent of copia's code)
fn def_digest(w: &[u8]) -> u32 {
    let n = w.len() as u128;
    let mut a: u128 = 0;
    let mut b: u128 = 0;
    for (i, &x) in w.iter().enumerate() {
        a += x as u128;
        b += (n - i as u128) * x as u128;
    }
    (((b % 65521) as u32) << 16) | (a % 65521) as u32
}

/// slide a window of n over data, comparing the rolling digest with the definition at every step
fn slide_check(case: &Value) -> Value {
    let ty = case["ty"].as_str().unwrap();
    let data = bytes_of(&case["data"]);
    let n = case["n"].as_u64().unwrap() as usize;
    let mut r32 = RollingChecksum::new(&data[..n]);
    let mut r64 = FastRollingChecksum::new(&data[..n]);
    // incremental definition (exact, u128) to keep the check O(len)
    let mut a: u128 = data[..n].iter().map(|&x| x as u128).sum();
    let mut b: u128 = data[..n].iter().enumerate().map(|(i, &x)| (n - i) as u128 * x as u128).sum();
    let dig = |a: u128, b: u128| (((b % 65521) as u32) << 16) | (a % 65521) as u32;
    if def_digest(&data[..n]) != dig(a, b) {
        return json!({"error": "oracle self-check failed"});
    }
    let first = if ty == "rolling" { r32.digest() } else { r64.digest() };
    if first != dig(a, b) {
        return json!({"mismatch_at": 0, "got": first, "want": dig(a, b)});
    }
    for i in 0..data.len() - n {
        let (o, x) = (data[i], data[i + n]);
        a = a - o as u128 + x as u128;
        b = b - (n as u128) * o as u128 + a;
        let got = if ty == "rolling" { r32.roll(o, x); r32.digest() } else { r64.roll(o, x); r64.digest() };
        if got != dig(a, b) {
            return json!({"mismatch_at": i + 1, "got": got, "want": dig(a, b)});
        }
    }
    json!({"mismatch_at": Value::Null, "steps": data.len() - n})
}

fn run_case(case: &Value) -> Value {
    match case["fn"].as_str().unwrap_or("") {
        "checksum" => checksum(case),
        "slide_check" => slide_check(case),
        "delta" => delta_case(case),
        "patch" => patch_case(case),
        "parse_remote" => {
            let data = bytes_of(&case["data"]);
            let m = bin_meta::meta::parse_remote_meta_output(&data);
            let mut o = serde_json::Map::new();
            for (p, fm) in m {
                o.insert(p.to_string_lossy().into_owned(), json!([fm.size, fm.mtime]));
            }
            json!({"result": Value::Object(o)})
        }
        "glob_match" => json!({"result": plan::glob_match(case["pat"].as_str().unwrap(), case["text"].as_str().unwrap())}),
        "is_excluded" => {
            let ex: Vec<String> = case["excludes"].as_array().unwrap().iter().map(|s| s.as_str().unwrap().to_string()).collect();
            json!({"result": plan::is_excluded(std::path::Path::new(case["path"].as_str().unwrap()), &ex)})
        }
        "needs_transfer" => {
            let s = plan::FileMeta { size: case["src"][0].as_u64().unwrap(), mtime: case["src"][1].as_i64().unwrap() };
            let d = if case["dst"].is_null() { None } else { Some(plan::FileMeta { size: case["dst"][0].as_u64().unwrap(), mtime: case["dst"][1].as_i64().unwrap() }) };
            json!({"result": plan::needs_transfer(s, d)})
        }
        "build_plan" => {
            let ex: Vec<String> = case["excludes"].as_array().unwrap().iter().map(|s| s.as_str().unwrap().to_string()).collect();
            let p = plan::build_plan(&meta_map(&case["src"]), &meta_map(&case["dst"]), &ex, case["with_delete"].as_bool().unwrap());
            json!({"transfer": paths(&p.transfer), "skipped": p.skipped, "delete": paths(&p.delete)})
        }
        "reconcile_path" => json!({"result": format!("{:?}", reconcile::reconcile_path(fp(&case["a"]), fp(&case["b"]), fp(&case["base"])))}),
        "reconcile" => {
            let r = reconcile::reconcile(&fpmap(&case["a"]), &fpmap(&case["b"]), &fpmap(&case["base"]), case["trust_base"].as_bool().unwrap());
            json!({"result": r.iter().map(|(p, a)| json!([p.to_string_lossy(), format!("{a:?}")])).collect::<Vec<_>>()})
        }
        "codec_read_hostile" => {
            // the given 12-byte header followed by a family of hostile payloads; reports panics, acceptance and the
            // largest single allocation request made while reading
            let hdr = bytes_of(&case["header"]);
            let declared = u32::from_le_bytes([hdr[4], hdr[5], hdr[6], hdr[7]]) as usize;
            let plen = declared.min(1 << 16);
            let mut payloads: Vec<Vec<u8>> = Vec::new();
            payloads.push(vec![0u8; plen]);
            payloads.push(vec![0xFFu8; plen]);
            // bincode: enum tag (u32) then fields; hostile length prefixes for String / Vec fields
            for tag in 0u32..7 {
                for lenpfx in [u64::MAX, 1u64 << 26, 1u64 << 34] {
                    let mut p = Vec::new();
                    p.extend_from_slice(&tag.to_le_bytes());
                    p.extend_from_slice(&7u64.to_le_bytes());
                    p.extend_from_slice(&lenpfx.to_le_bytes());
                    p.extend_from_slice(&lenpfx.to_le_bytes());
                    p.resize(plen.max(p.len()), 0);
                    p.truncate(plen.max(28));
                    payloads.push(p);
                }
            }
            let mut any_ok = false;
            let mut max_alloc = 0usize;
            let mut input_len = 0usize;
            // acceptance probe: the same header fields (magic, type, version, flags) in front of a VALID payload of that type
            if declared <= 16 * 1024 * 1024 {
                use copia::Message;
                let valid: Option<Message> = match hdr[8] {
                    1 => Some(Message::SignatureRequest { file_id: 1, block_size: 2048 }),
                    4 => Some(Message::Ack { file_id: 1, success: true, message: None }),
                    5 => Some(Message::Error { code: 1, message: "x".into() }),
                    6 => Some(Message::Ping { seq: 7 }),
                    7 => Some(Message::Pong { seq: 7 }),
                    _ => None,
                };
                if let Some(m) = valid {
                    let p = m.encode().unwrap();
                    let mut wire = hdr.clone();
                    wire[4..8].copy_from_slice(&(p.len() as u32).to_le_bytes());
                    wire.extend_from_slice(&p);
                    any_ok |= copia::Codec::new().read_message(&mut Cursor::new(&wire)).is_ok();
                }
            }
            for p in payloads {
                let mut wire = hdr.clone();
                wire.extend_from_slice(&p);
                input_len = wire.len();
                let mut codec = copia::Codec::new();
                MAX_REQ.store(0, Ordering::Relaxed);
                let r = codec.read_message(&mut Cursor::new(&wire));
                max_alloc = max_alloc.max(MAX_REQ.load(Ordering::Relaxed));
                any_ok |= r.is_ok();
                let mut codec0 = copia::Codec::default();
                MAX_REQ.store(0, Ordering::Relaxed);
                let r0 = codec0.read_message(&mut Cursor::new(&wire));
                max_alloc = max_alloc.max(MAX_REQ.load(Ordering::Relaxed));
                any_ok |= r0.is_ok();
            }
            json!({"any_ok": any_ok, "max_alloc": max_alloc, "input_len": input_len})
        }
        "codec_chunked_roundtrip" => {
            // well-formed frames written by Codec::write_message, read back through a reader that hands out at most
            // `chunks[i % len]` bytes per read() call (a socket / pipe / BufReader refill boundary)
            use copia::Message;
            let chunks: Vec<usize> = case["chunks"].as_array().unwrap().iter().map(|c| (c.as_u64().unwrap() as usize).max(1)).collect();
            let msgs = vec![
                Message::SignatureRequest { file_id: 1, block_size: 2048 },
                Message::Ack { file_id: 9, success: true, message: Some("ok".into()) },
                Message::Error { code: 3, message: "boom".into() },
                Message::Ping { seq: 7 },
                Message::Pong { seq: u64::MAX },
            ];
            let mut wire = Vec::new();
            let mut codec = copia::Codec::new();
            for m in &msgs {
                codec.write_message(&mut wire, m).unwrap();
            }
            struct Chunked<'a> { data: &'a [u8], pos: usize, chunks: &'a [usize], k: usize }
            impl<'a> std::io::Read for Chunked<'a> {
                fn read(&mut self, buf: &mut [u8]) -> std::io::Result<usize> {
                    let n = buf.len().min(self.data.len() - self.pos).min(self.chunks[self.k % self.chunks.len()]);
                    self.k += 1;
                    buf[..n].copy_from_slice(&self.data[self.pos..self.pos + n]);
                    self.pos += n;
                    Ok(n)
                }
            }
            let mut rd = Chunked { data: &wire, pos: 0, chunks: &chunks, k: 0 };
            let mut bad = Vec::new();
            for (i, m) in msgs.iter().enumerate() {
                match codec.read_message(&mut rd) {
                    Ok(got) if &got == m => {}
                    Ok(got) => { bad.push(json!({"frame": i, "got": format!("{got:?}")})); break; }
                    Err(e) => { bad.push(json!({"frame": i, "error": e.to_string()})); break; }
                }
            }
            json!({"equal": bad.is_empty(), "mismatches": bad})
        }
        "async_signature_chunked" => {
            // AsyncCopiaSync::signature over an AsyncRead that returns short reads, against Signature::generate
            let data = bytes_of(&case["data"]);
            let bs = case["bs"].as_u64().unwrap() as usize;
            let chunks: Vec<usize> = case["chunks"].as_array().unwrap().iter().map(|c| (c.as_u64().unwrap() as usize).max(1)).collect();
            struct AChunked { data: Vec<u8>, pos: usize, chunks: Vec<usize>, k: usize }
            impl tokio::io::AsyncRead for AChunked {
                fn poll_read(mut self: std::pin::Pin<&mut Self>, _cx: &mut std::task::Context<'_>, buf: &mut tokio::io::ReadBuf<'_>) -> std::task::Poll<std::io::Result<()>> {
                    let me = &mut *self;
                    let n = buf.remaining().min(me.data.len() - me.pos).min(me.chunks[me.k % me.chunks.len()]);
                    me.k += 1;
                    buf.put_slice(&me.data[me.pos..me.pos + n]);
                    me.pos += n;
                    std::task::Poll::Ready(Ok(()))
                }
            }
            let want = Signature::generate(&mut Cursor::new(&data), bs).map_err(|e| e.to_string());
            let got = block_on(AsyncCopiaSync::with_block_size(bs).signature(AChunked { data: data.clone(), pos: 0, chunks, k: 0 })).map_err(|e| e.to_string());
            let equal = match (&want, &got) {
                (Ok(w), Ok(g)) => w.block_size == g.block_size && w.file_size == g.file_size && w.blocks.len() == g.blocks.len()
                    && w.blocks.iter().zip(g.blocks.iter()).all(|(x, y)| x.index == y.index && x.weak_hash == y.weak_hash && x.strong_hash.as_bytes() == y.strong_hash.as_bytes()),
                (Err(_), Err(_)) => true,
                _ => false,
            };
            json!({"equal": equal, "sync_blocks": want.as_ref().map(|w| w.blocks.len()).ok(), "async_blocks": got.as_ref().map(|g| g.blocks.len()).ok()})
        }
        "signature_check" => {
            // Signature::generate vs an independent sequential reference (definition digest + the blake3 crate directly)
            let n = case["n"].as_u64().unwrap() as usize;
            let bs = case["bs"].as_u64().unwrap() as usize;
            let mut x = case["seed"].as_u64().unwrap_or(1);
            let data: Vec<u8> = (0..n).map(|_| { x = x.wrapping_mul(6364136223846793005).wrapping_add(1442695040888963407); (x >> 33) as u8 }).collect();
            let sig = Signature::generate(&mut Cursor::new(&data), bs).unwrap();
            let mut mism = Vec::new();
            let nb = (n + bs - 1) / bs;
            if sig.blocks.len() != nb || sig.file_size != n as u64 || sig.block_size != bs {
                mism.push(json!({"blocks": sig.blocks.len(), "expected_blocks": nb}));
            }
            for (i, chunk) in data.chunks(bs).enumerate() {
                if let Some(b) = sig.blocks.get(i) {
                    let ok = b.index as usize == i && b.weak_hash == def_digest(chunk) && b.strong_hash.as_bytes() == blake3::hash(chunk).as_bytes();
                    if !ok && mism.len() < 4 {
                        mism.push(json!({"block": i, "index": b.index, "weak_ok": b.weak_hash == def_digest(chunk)}));
                    }
                }
            }
            json!({"equal": mism.is_empty(), "mismatches": mism})
        }
        "set_local_mtime_roundtrip" => {
            // real file system: write a file, set its mtime through copia, read it back through copia
            let secs = case["secs"].as_i64().unwrap();
            let dir = std::env::temp_dir().join(format!("copia-verif-mtime-{}", std::process::id()));
            let _ = std::fs::remove_dir_all(&dir);
            std::fs::create_dir_all(&dir).unwrap();
            let f = dir.join("f");
            std::fs::write(&f, b"x").unwrap();
            // start from a known, different mtime
            let t0 = std::time::UNIX_EPOCH + std::time::Duration::from_secs(1_234_567);
            std::fs::File::options().write(true).open(&f).unwrap().set_modified(t0).unwrap();
            let r = if let Some(ns) = case.get("raw_ns").and_then(Value::as_u64) {
                // set (secs, nanos) directly through std: exercises copia's read side (mtime_secs) on a sub-second mtime
                let t = std::time::UNIX_EPOCH + std::time::Duration::new(secs as u64, ns as u32);
                std::fs::File::options().write(true).open(&f).and_then(|fh| fh.set_modified(t))
            } else {
                bin_meta::meta::set_local_mtime(&f, secs)
            };
            let m = bin_meta::meta::discover_local_with_meta(&dir).unwrap();
            let after = m.get(&PathBuf::from("f")).map(|x| x.mtime);
            let _ = std::fs::remove_dir_all(&dir);
            json!({"result": r.is_ok(), "mtime_after": after})
        }
        "header_encode" => {
            let t = copia::MessageType::from_u8(case["type"].as_u64().unwrap() as u8).unwrap();
            let mut h = copia::FrameHeader::new(t, case["length"].as_u64().unwrap() as u32);
            h.flags = case["flags"].as_u64().unwrap_or(0) as u16;
            let e = h.encode();
            let back = copia::FrameHeader::decode(&e);
            json!({"encode": e.to_vec(), "decode_ok": back.is_ok(),
                   "decoded_length": back.as_ref().map(|x| x.length).unwrap_or(0), "decoded_flags": back.as_ref().map(|x| x.flags).unwrap_or(0)})
        }
        "header_decode" => {
            let b = bytes_of(&case["buf"]);
            let mut a = [0u8; 12];
            a.copy_from_slice(&b);
            match copia::FrameHeader::decode(&a) {
                Ok(h) => json!({"ok": {"length": h.length, "type": h.msg_type as u8, "version": h.version, "flags": h.flags, "encode": h.encode().to_vec()}}),
                Err(e) => json!({"err": e.to_string()}),
            }
        }
        other => json!({"error": format!("unknown fn {other}")}),
    }
}

fn main() {
    std::panic::set_hook(Box::new(|_| {}));
    let stdin = std::io::stdin();
    let stdout = std::io::stdout();
    let mut out = stdout.lock();
    for line in stdin.lock().lines() {
        let line = line.unwrap();
        if line.trim().is_empty() {
            continue;
        }
        let case: Value = match serde_json::from_str(&line) {
            Ok(v) => v,
            Err(e) => {
                writeln!(out, "{}", json!({"error": format!("bad json: {e}")})).unwrap();
                continue;
            }
        };
        let res = catch_unwind(AssertUnwindSafe(|| run_case(&case)));
        let v = match res {
            Ok(v) => v,
            Err(p) => {
                let msg = p.downcast_ref::<String>().cloned().or_else(|| p.downcast_ref::<&str>().map(|s| s.to_string())).unwrap_or_default();
                json!({"panic": msg})
            }
        };
        writeln!(out, "{v}").unwrap();
        out.flush().unwrap();
    }
}
